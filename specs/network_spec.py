"""Definition-level specifications of the structural measures of pyunicorn.core.network.Network
(property C03).

Everything here is a direct evaluation of the published / documented definition on a plain
adjacency matrix ``A`` (``A[i][j] == 1``  <=>  link i -> j; symmetric for undirected graphs), in
pure Python (``fractions.Fraction`` where a value is rational) or dense NumPy float64 linear
algebra.  Nothing here imports pyunicorn or igraph.

Conventions that are *pyunicorn's* (read from the docstrings / docstring examples in
``src/pyunicorn/core/network.py``) are marked "convention:" at the function.

A return value of ``None`` (or a ``None`` entry) means "the definition does not give a value here
and the library documents no convention" -- the harness must not assert anything for it.
"""
from fractions import Fraction as Fr
import itertools
import math

import numpy as np

INF = float("inf")


# ------------------------------------------------------------------------------------- basics

def as_int_lists(A):
    return [[int(bool(x)) for x in row] for row in np.asarray(A).tolist()]


def n_nodes(A):
    return len(A)


def out_neighbours(A, i):
    return [j for j in range(len(A)) if A[i][j]]


def in_neighbours(A, i):
    return [j for j in range(len(A)) if A[j][i]]


def symmetrised(A):
    n = len(A)
    return [[1 if (A[i][j] or A[j][i]) else 0 for j in range(n)] for i in range(n)]


def is_symmetric(A):
    n = len(A)
    return all(A[i][j] == A[j][i] for i in range(n) for j in range(n))


def outdegree(A):
    return [sum(1 for x in row if x) for row in A]


def indegree(A):
    n = len(A)
    return [sum(1 for i in range(n) if A[i][j]) for j in range(n)]


def total_degree(A, directed):
    """convention: for directed networks `degree()` is in-degree + out-degree."""
    if directed:
        return [a + b for a, b in zip(indegree(A), outdegree(A))]
    return outdegree(A)


def bilateral_degree(A):
    """Number of nodes j with i -> j and j -> i."""
    n = len(A)
    return [sum(1 for j in range(n) if A[i][j] and A[j][i]) for i in range(n)]


def out_strength(W, A):
    n = len(A)
    return [sum(W[i][j] for j in range(n) if A[i][j]) for i in range(n)]


def in_strength(W, A):
    n = len(A)
    return [sum(W[j][i] for j in range(n) if A[j][i]) for i in range(n)]


def laplacian(A, directed, direction="out"):
    """L = D - A with D the out- (or in-) degree; undirected: the degree."""
    n = len(A)
    if directed and direction == "in":
        d = indegree(A)
    else:
        d = outdegree(A)
    return [[(d[i] if i == j else 0) - A[i][j] for j in range(n)] for i in range(n)]


# --------------------------------------------------------------------------- shortest paths

def bfs_distances(A):
    """D[i][j] = length of a shortest directed path i -> j (number of links), INF if none."""
    n = len(A)
    nb = [out_neighbours(A, i) for i in range(n)]
    D = [[INF] * n for _ in range(n)]
    for s in range(n):
        D[s][s] = 0
        frontier = [s]
        d = 0
        while frontier:
            d += 1
            nxt = []
            for u in frontier:
                for v in nb[u]:
                    if D[s][v] == INF:
                        D[s][v] = d
                        nxt.append(v)
            frontier = nxt
    return D


def all_simple_paths(A, s, t):
    """Brute force: every simple directed path s -> t as a tuple of nodes (for tiny graphs)."""
    n = len(A)
    res = []

    def rec(path, seen):
        u = path[-1]
        if u == t:
            res.append(tuple(path))
            return
        for v in range(n):
            if A[u][v] and v not in seen:
                seen.add(v)
                path.append(v)
                rec(path, seen)
                path.pop()
                seen.discard(v)
    rec([s], {s})
    return res


def shortest_paths_bruteforce(A):
    """SP[s][t] = list of all shortest s->t paths found by enumerating *all* simple paths."""
    n = len(A)
    SP = [[[] for _ in range(n)] for _ in range(n)]
    for s in range(n):
        for t in range(n):
            if s == t:
                SP[s][t] = [(s,)]
                continue
            paths = all_simple_paths(A, s, t)
            if paths:
                m = min(len(p) for p in paths)
                SP[s][t] = [p for p in paths if len(p) == m]
    return SP


def path_counts(A, D):
    """sigma[s][t] = number of shortest s->t paths = number of walks of length D[s][t]
    (every walk of the minimal length is a shortest path); exact Python integers."""
    n = len(A)
    M = np.array(A, dtype=object)
    P = np.array([[1 if i == j else 0 for j in range(n)] for i in range(n)], dtype=object)
    maxd = max([d for row in D for d in row if d != INF] + [0])
    sigma = [[0] * n for _ in range(n)]
    for d in range(0, maxd + 1):
        for s in range(n):
            for t in range(n):
                if D[s][t] == d:
                    sigma[s][t] = int(P[s, t])
        if d < maxd:
            P = P.dot(M)
    return sigma


def weighted_distances(A, W):
    """Floyd-Warshall on link lengths W[i][j] (only where A[i][j]); lengths must be > 0.
    Exact when the lengths are ints / Fractions / dyadic floats."""
    n = len(A)
    D = [[0 if i == j else (W[i][j] if A[i][j] else INF) for j in range(n)] for i in range(n)]
    for k in range(n):
        for i in range(n):
            dik = D[i][k]
            if dik == INF:
                continue
            for j in range(n):
                alt = dik + D[k][j]
                if alt < D[i][j]:
                    D[i][j] = alt
    return D


def average_path_length(D):
    """Mean of D over ordered pairs i != j joined by a path; None if there is no such pair.
    (For undirected graphs the mean over unordered pairs is the same number.)"""
    n = len(D)
    vals = [D[i][j] for i in range(n) for j in range(n) if i != j and D[i][j] != INF]
    if not vals:
        return None
    return Fr(sum(Fr(v) for v in vals), len(vals)) if all(isinstance(v, (int, Fr)) for v in vals) \
        else sum(vals) / len(vals)


def diameter(D):
    """Largest finite shortest-path length."""
    return max(d for row in D for d in row if d != INF)


def is_connected(D):
    return all(d != INF for row in D for d in row)


def closeness(D):
    """(N-1) / sum_j d(i,j): inverse mean distance from i to all others.  Only for graphs where
    every node reaches every other one; otherwise None (undocumented in the library)."""
    n = len(D)
    if not is_connected(D):
        return None
    return [Fr(n - 1) / Fr(sum(Fr(x) for x in D[i])) if all(isinstance(x, (int, Fr)) for x in D[i])
            else (n - 1) / sum(D[i]) for i in range(n)]


def global_efficiency(D):
    """[Costa2007]: E = 1/(N(N-1)) * sum_{i != j} 1/d(i,j), with 1/inf = 0."""
    n = len(D)
    exact = all(isinstance(x, (int, Fr)) for row in D for x in row if x != INF)
    tot = Fr(0) if exact else 0.0
    for i in range(n):
        for j in range(n):
            if i != j and D[i][j] != INF:
                tot += (Fr(1) / Fr(D[i][j])) if exact else 1.0 / D[i][j]
    return tot / (n * (n - 1))


def remove_node(M, i):
    n = len(M)
    keep = [k for k in range(n) if k != i]
    return [[M[a][b] for b in keep] for a in keep]


def local_vulnerability(A, W=None):
    """[Costa2007]: V_i = (E - E_i) / E with E_i the global efficiency of the network from which
    node i and its links were removed.  convention (docstring example, leaf node -> -0.125): E_i is
    normalised by the (N-1)(N-2) pairs of the reduced network.  None if E == 0 or N < 3."""
    n = len(A)
    if n < 3:
        return None
    D = bfs_distances(A) if W is None else weighted_distances(A, W)
    E = global_efficiency(D)
    if E == 0:
        return None
    res = []
    for i in range(n):
        Ai = remove_node(A, i)
        Di = bfs_distances(Ai) if W is None else weighted_distances(Ai, remove_node(W, i))
        res.append((E - global_efficiency(Di)) / E)
    return res


# ------------------------------------------------------------------ shortest-path betweenness

def _pair_dependency_tables(A):
    D = bfs_distances(A)
    return D, path_counts(A, D)


def betweenness(A, directed, exact=True):
    """Shortest-path betweenness  b(v) = sum_{s != v != t} sigma_st(v) / sigma_st.
    convention (docstring example [4.5, 1.5, 0, 1, 3, 0]): undirected graphs count every unordered
    pair {s,t} once; directed graphs count ordered pairs along directed paths."""
    if exact:
        D, sg = _pair_dependency_tables(A)
        n = len(A)
        b = [Fr(0)] * n
        for s in range(n):
            for t in range(n):
                if s == t or D[s][t] == INF:
                    continue
                for v in range(n):
                    if v != s and v != t and D[s][v] + D[v][t] == D[s][t]:
                        b[v] += Fr(sg[s][v] * sg[v][t], sg[s][t])
        return b if directed else [x / 2 for x in b]
    b = interregional_betweenness_np(A, None, None)
    return b if directed else b / 2.0


def betweenness_bruteforce(A, directed):
    """The same quantity from an explicit enumeration of all simple paths (tiny graphs)."""
    n = len(A)
    SP = shortest_paths_bruteforce(A)
    b = [Fr(0)] * n
    for s in range(n):
        for t in range(n):
            if s == t or not SP[s][t]:
                continue
            tot = len(SP[s][t])
            for p in SP[s][t]:
                for v in p[1:-1]:
                    b[v] += Fr(1, tot)
    return b if directed else [x / 2 for x in b]


def interregional_betweenness(A, sources, targets):
    """sum over ordered pairs (s in sources, t in targets, s != t) of the fraction of shortest
    s-t paths through v (v not an end point).  convention (docstring example: all sources, all
    targets gives twice `betweenness()`): ordered pairs, no halving."""
    D, sg = _pair_dependency_tables(A)
    n = len(A)
    S = range(n) if sources is None else sorted(set(sources))
    T = range(n) if targets is None else sorted(set(targets))
    b = [Fr(0)] * n
    for s in S:
        for t in T:
            if s == t or D[s][t] == INF:
                continue
            for v in range(n):
                if v != s and v != t and D[s][v] + D[v][t] == D[s][t]:
                    b[v] += Fr(sg[s][v] * sg[v][t], sg[s][t])
    return b


def interregional_betweenness_np(A, sources, targets):
    """float64 version of the same triple sum for larger graphs."""
    D, sg = _pair_dependency_tables(A)
    n = len(A)
    Dn = np.array(D, dtype=float)
    Sg = np.array(sg, dtype=float)
    smask = np.zeros(n, bool)
    tmask = np.zeros(n, bool)
    smask[list(range(n) if sources is None else sources)] = True
    tmask[list(range(n) if targets is None else targets)] = True
    pair = smask[:, None] & tmask[None, :] & np.isfinite(Dn) & ~np.eye(n, dtype=bool)
    b = np.zeros(n)
    with np.errstate(invalid="ignore", divide="ignore"):
        for v in range(n):
            m = pair & (Dn[:, v][:, None] + Dn[v, :][None, :] == Dn)
            m[v, :] = False
            m[:, v] = False
            contrib = Sg[:, v][:, None] * Sg[v, :][None, :] / Sg
            b[v] = contrib[m].sum()
    return b


def link_betweenness(A, exact=True):
    """Undirected graphs: for the link {u,v}, sum over unordered pairs {s,t} (end points included)
    of the fraction of shortest s-t paths that use the link.  convention (docstring example: the
    pendant link of the 6-node test network has 5.0): unordered pairs, symmetric matrix, 0 for
    non-links."""
    D, sg = _pair_dependency_tables(A)
    n = len(A)
    if exact:
        R = [[Fr(0)] * n for _ in range(n)]
        for u in range(n):
            for v in range(u + 1, n):
                if not A[u][v]:
                    continue
                tot = Fr(0)
                for s in range(n):
                    for t in range(s + 1, n):
                        if D[s][t] == INF:
                            continue
                        if D[s][u] + 1 + D[v][t] == D[s][t]:
                            tot += Fr(sg[s][u] * sg[v][t], sg[s][t])
                        if D[s][v] + 1 + D[u][t] == D[s][t]:
                            tot += Fr(sg[s][v] * sg[u][t], sg[s][t])
                R[u][v] = R[v][u] = tot
        return R
    Dn = np.array(D, dtype=float)
    Sg = np.array(sg, dtype=float)
    R = np.zeros((n, n))
    upper = np.triu(np.ones((n, n), bool), 1) & np.isfinite(Dn)
    with np.errstate(invalid="ignore", divide="ignore"):
        for u in range(n):
            for v in range(u + 1, n):
                if not A[u][v]:
                    continue
                m1 = upper & (Dn[:, u][:, None] + 1 + Dn[v, :][None, :] == Dn)
                m2 = upper & (Dn[:, v][:, None] + 1 + Dn[u, :][None, :] == Dn)
                c1 = Sg[:, u][:, None] * Sg[v, :][None, :] / Sg
                c2 = Sg[:, v][:, None] * Sg[u, :][None, :] / Sg
                R[u, v] = R[v, u] = c1[m1].sum() + c2[m2].sum()
    return R


def link_betweenness_bruteforce(A):
    n = len(A)
    SP = shortest_paths_bruteforce(A)
    R = [[Fr(0)] * n for _ in range(n)]
    for s in range(n):
        for t in range(s + 1, n):
            if not SP[s][t]:
                continue
            tot = len(SP[s][t])
            for p in SP[s][t]:
                for a, b in zip(p[:-1], p[1:]):
                    R[a][b] += Fr(1, tot)
                    R[b][a] += Fr(1, tot)
    return R


# -------------------------------------------------------------- clustering / triangles / motifs

def local_clustering(A):
    """Watts-Strogatz: fraction of pairs of neighbours that are linked (undirected graphs).
    convention (docstring example, the degree-1 node): 0 when there is no pair of neighbours."""
    n = len(A)
    res = []
    for i in range(n):
        nb = out_neighbours(A, i)
        k = len(nb)
        if k < 2:
            res.append(Fr(0))
            continue
        t = sum(1 for a, b in itertools.combinations(nb, 2) if A[a][b])
        res.append(Fr(t, k * (k - 1) // 2))
    return res


def transitivity(A):
    """3 * (number of triangles) / (number of connected triples); None if there is no triple."""
    n = len(A)
    closed = 0
    triples = 0
    for i in range(n):
        nb = out_neighbours(A, i)
        triples += len(nb) * (len(nb) - 1) // 2
        closed += sum(1 for a, b in itertools.combinations(nb, 2) if A[a][b])
    # `closed` counts each triangle three times (once per centre) = 3 * triangles
    return Fr(closed, triples) if triples else None


def n_triangles(A):
    n = len(A)
    return sum(1 for a, b, c in itertools.combinations(range(n), 3) if A[a][b] and A[b][c] and A[a][c])


def motif_clustering(A, motif, W=None, closed=False):
    """[Fagiolo2007] directed clustering of node i for one of the four triangle motifs, as the
    number of realised motifs over the number of possible ones, both by enumeration of ordered
    pairs (j,k) of other nodes:
      cycle : i->j, j->k, k->i      possible: i->j, k->i, j != k
      mid   : i->j, k->j, k->i      possible: i->j, k->i, j != k
      in    : j->i, j->k, k->i      possible: j->i, k->i, j != k
      out   : i->j, j->k, i->k      possible: i->j, i->k, j != k
    Link-weighted version (W given): each realised motif counts with the product of the cube
    roots of its three link weights (same denominator).
    convention (docstring examples): 0 where nothing is possible.

    closed=True evaluates the same sums on A+ = A + Id (every node also linked to itself, pairs
    (j,k) unrestricted): the unit-node-weight value of the n.s.i. versions [Zemp2014], whose
    denominators are k+_in*k+_out, k+_in*k+_out, (k+_in)^2, (k+_out)^2.
    """
    n = len(A)
    if closed:
        B = [[1 if (i == j or A[i][j]) else 0 for j in range(n)] for i in range(n)]
    else:
        B = A
    res = []
    for i in range(n):
        num = Fr(0) if W is None else 0.0
        den = 0
        for j in range(n):
            for k in range(n):
                if not closed and (j == k or j == i or k == i):
                    continue
                if motif == "cycle":
                    poss = B[i][j] and B[k][i]
                    links = ((i, j), (j, k), (k, i))
                elif motif == "mid":
                    poss = B[i][j] and B[k][i]
                    links = ((i, j), (k, j), (k, i))
                elif motif == "in":
                    poss = B[j][i] and B[k][i]
                    links = ((j, i), (j, k), (k, i))
                elif motif == "out":
                    poss = B[i][j] and B[i][k]
                    links = ((i, j), (j, k), (i, k))
                else:
                    raise ValueError(motif)
                if poss:
                    den += 1
                if all(B[a][b] for a, b in links):
                    if W is None:
                        num += 1
                    else:
                        num += (W[links[0][0]][links[0][1]] ** (1 / 3.)
                                * W[links[1][0]][links[1][1]] ** (1 / 3.)
                                * W[links[2][0]][links[2][1]] ** (1 / 3.))
        if den == 0:
            res.append(Fr(0) if W is None else 0.0)
        else:
            res.append(num / den)
    return res


def _count_cliques_in(cands, nbmask, r):
    """Number of r-cliques inside the node set given as a bitmask."""
    if r == 0:
        return 1
    if r == 1:
        return bin(cands).count("1")
    tot = 0
    c = cands
    while c:
        low = c & -c
        v = low.bit_length() - 1
        c ^= low
        # only nodes with a larger index than v: each clique counted once
        tot += _count_cliques_in(c & nbmask[v], nbmask, r - 1)
    return tot


def local_cliquishness(A, order, ordered_tuples=False):
    """Relative number of cliques of `order` nodes containing node i: the number of
    (order-1)-cliques among the neighbours of i over the number C(k_i, order-1) of
    (order-1)-subsets of neighbours; convention (docstring): 0 if k_i < order - 1.

    ordered_tuples=True evaluates it literally as (number of ordered (order-1)-tuples of distinct,
    pairwise linked neighbours) / (k (k-1) ... (k-order+2))."""
    n = len(A)
    res = []
    nbmask = [sum(1 << j for j in range(n) if A[i][j]) for i in range(n)]
    for i in range(n):
        nb = out_neighbours(A, i)
        k = len(nb)
        r = order - 1
        if k < r:
            res.append(Fr(0))
            continue
        if ordered_tuples:
            cnt = sum(1 for tup in itertools.permutations(nb, r)
                      if all(A[a][b] for a, b in itertools.combinations(tup, 2)))
            ff = 1
            for q in range(r):
                ff *= (k - q)
            res.append(Fr(cnt, ff))
        else:
            res.append(Fr(_count_cliques_in(nbmask[i], nbmask, r), math.comb(k, r)))
    return res


def higher_order_transitivity4(A):
    """4 * (number of 4-cliques) / (number of 4-node stars = sum_i C(k_i,3)); None if no star."""
    n = len(A)
    nbmask = [sum(1 << j for j in range(n) if A[i][j]) for i in range(n)]
    cliques = _count_cliques_in((1 << n) - 1, nbmask, 4)
    stars = sum(math.comb(k, 3) for k in outdegree(A))
    return Fr(4 * cliques, stars) if stars else None


def weighted_local_clustering_holme(W):
    """[Holme2007]:  c_w(i) = sum_{jk} w_ij w_jk w_ki / ( max(w) * sum_{jk} w_ij w_ki ).
    None where the denominator is 0."""
    n = len(W)
    mx = max(max(row) for row in W)
    res = []
    for i in range(n):
        num = 0.0
        den = 0.0
        for j in range(n):
            for k in range(n):
                num += W[i][j] * W[j][k] * W[k][i]
                den += W[i][j] * mx * W[k][i]
        res.append(num / den if den != 0 else None)
    return res


# ---------------------------------------------------------- neighbourhood / degree correlations

def average_neighbours_degree(A):
    """Mean degree of the neighbours (undirected); None for a node without neighbours."""
    k = outdegree(A)
    return [Fr(sum(k[j] for j in out_neighbours(A, i)), k[i]) if k[i] else None
            for i in range(len(A))]


def max_neighbours_degree(A):
    k = outdegree(A)
    return [max(k[j] for j in out_neighbours(A, i)) if k[i] else None for i in range(len(A))]


def matching_index(A):
    """|N(i) & N(j)| / |N(i) | N(j)| (undirected); None where the union is empty."""
    n = len(A)
    nb = [set(out_neighbours(A, i)) for i in range(n)]
    return [[Fr(len(nb[i] & nb[j]), len(nb[i] | nb[j])) if (nb[i] | nb[j]) else None
             for j in range(n)] for i in range(n)]


def assortativity(A):
    """[Newman2002] eq. (4) = Pearson correlation coefficient of the degrees found at the two ends
    of a link, every link taken in both orientations.  None if there is no link or the end-point
    degrees have zero variance."""
    n = len(A)
    k = outdegree(A)
    xs = [k[i] for i in range(n) for j in range(n) if A[i][j]]
    ys = [k[j] for i in range(n) for j in range(n) if A[i][j]]
    m = len(xs)
    if m == 0:
        return None
    mx = Fr(sum(xs), m)
    my = Fr(sum(ys), m)
    cov = sum((x - mx) * (y - my) for x, y in zip(xs, ys)) / m
    var = sum((x - mx) ** 2 for x in xs) / m
    if var == 0:
        return None
    return cov / var   # var(x) == var(y) since both orientations are present


def coreness(A, directed):
    """coreness(i) = max k such that i belongs to the k-core (maximal sub-network in which every
    node has degree >= k inside the sub-network), by peeling.  convention: a directed network
    uses the library's total degree in + out (a reciprocated pair counts twice)."""
    n = len(A)

    def deg_in(sub, i):
        if directed:
            return sum(1 for j in sub if A[i][j]) + sum(1 for j in sub if A[j][i])
        return sum(1 for j in sub if A[i][j])

    core = [0] * n
    k = 0
    while True:
        k += 1
        sub = set(range(n))
        changed = True
        while changed:
            changed = False
            for i in list(sub):
                if deg_in(sub, i) < k:
                    sub.discard(i)
                    changed = True
        if not sub:
            break
        for i in sub:
            core[i] = k
    return core


# ------------------------------------------------------------------------ random walk measures

def solve_fraction(M, B):
    """Solve M X = B exactly (Gauss-Jordan over Fractions); M square non-singular."""
    n = len(M)
    m = len(B[0])
    aug = [[Fr(x) for x in M[i]] + [Fr(x) for x in B[i]] for i in range(n)]
    for c in range(n):
        p = next(r for r in range(c, n) if aug[r][c] != 0)
        aug[c], aug[p] = aug[p], aug[c]
        piv = aug[c][c]
        aug[c] = [x / piv for x in aug[c]]
        for r in range(n):
            if r != c and aug[r][c] != 0:
                f = aug[r][c]
                aug[r] = [a - f * b for a, b in zip(aug[r], aug[c])]
    return [row[n:n + m] for row in aug]


def newman_betweenness(A, exact=False):
    """[Newman2005] random-walk (current-flow) betweenness of a connected undirected graph.
    For a unit current injected at s and extracted at t the potentials solve  L V = e_s - e_t;
    the current through i is  I_i^(st) = 1/2 sum_j A_ij |V_i - V_j|  for i not in {s,t} and 1 for
    i in {s,t}.  convention (docstring example: a pendant node has 2.0, i.e. N times Newman's
    normalised value): result_i = sum_{s<t} I_i^(st) / ((N-1)/2)."""
    n = len(A)
    L = laplacian(A, False)
    if exact:
        # ground node 0: V_0 = 0
        keep = list(range(1, n))
        Lr = [[L[a][b] for b in keep] for a in keep]
        Vcols = solve_fraction(Lr, [[1 if a == b else 0 for b in keep] for a in keep])
        G = [[Fr(0)] * n for _ in range(n)]      # G[i][s] = potential at i for unit injection at s
        for ai, a in enumerate(keep):
            for bi, b in enumerate(keep):
                G[a][b] = Vcols[ai][bi]
        res = []
        for i in range(n):
            tot = Fr(0)
            for s in range(n):
                for t in range(s + 1, n):
                    if i in (s, t):
                        tot += 1
                    else:
                        cur = Fr(0)
                        for j in range(n):
                            if A[i][j]:
                                cur += abs((G[i][s] - G[i][t]) - (G[j][s] - G[j][t]))
                        tot += cur / 2
            res.append(tot * 2 / (n - 1))
        return res
    # Green's function of the connected Laplacian: (L + J/n)^-1 differs from the pseudo-inverse only
    # by a multiple of the all-ones matrix J, which cancels in the potential differences below
    G = np.linalg.inv(np.array(L, dtype=np.float64) + np.ones((n, n)) / n)
    An = np.array(A, dtype=np.float64)
    res = np.zeros(n)
    for s in range(n):
        for t in range(s + 1, n):
            V = G[:, s] - G[:, t]
            cur = 0.5 * (An * np.abs(V[:, None] - V[None, :])).sum(axis=1)
            cur[s] = 1.0
            cur[t] = 1.0
            res += cur
    return res * 2.0 / (n - 1)


def arenas_betweenness(A, exact=False):
    """[Arenas2003]-type random-walk betweenness of a connected undirected graph: a walker starts
    at s, moves to a uniformly chosen neighbour at each step and is absorbed when it arrives at
    the target t.  result_j = sum over all ordered pairs (s,t), s != t, of the expected number of
    *arrivals* at j (the start is not an arrival; the final arrival at t counts once).
    Evaluated with the fundamental matrix of the absorbing chain: F_t = (I - P restricted to the
    non-target nodes)^-1, F_t[s,j] = expected number of visits (start included)."""
    n = len(A)
    k = outdegree(A)
    if exact:
        res = [Fr(0)] * n
        for t in range(n):
            keep = [a for a in range(n) if a != t]
            Q = [[(1 if a == b else 0) - (Fr(A[a][b], k[a])) for b in keep] for a in keep]
            F = solve_fraction(Q, [[1 if a == b else 0 for b in keep] for a in keep])
            for si, s in enumerate(keep):
                for ji, j in enumerate(keep):
                    res[j] += F[si][ji] - (1 if s == j else 0)
                res[t] += 1   # absorbed at t exactly once (the graph is connected)
        return res
    P = np.array(A, dtype=np.float64) / np.array(k, dtype=np.float64)[:, None]
    res = np.zeros(n)
    for t in range(n):
        keep = [a for a in range(n) if a != t]
        Q = P[np.ix_(keep, keep)]
        F = np.linalg.solve(np.eye(n - 1) - Q, np.eye(n - 1))
        res[keep] += (F - np.eye(n - 1)).sum(axis=0)
        res[t] += n - 1
    return res


# ---------------------------------------------------------------------------- spectral measures

def perron_vector(M):
    """Eigenvector of the largest eigenvalue of a symmetric non-negative irreducible matrix, scaled
    to maximum 1 (dense LAPACK `eigh`, float64)."""
    vals, vecs = np.linalg.eigh(np.array(M, dtype=np.float64))
    v = vecs[:, np.argmax(vals)]
    v = v * np.sign(v[np.argmax(np.abs(v))])
    return v / v.max()


def eigenvector_centrality(A):
    """Connected undirected graphs: Perron vector of A, maximum 1."""
    return perron_vector(A)


def pagerank(A, W=None, damping=0.85):
    """Stationary distribution of the PageRank chain [Brin&Page1998] with damping 0.85: with
    probability d follow an out-link (chosen proportionally to its weight), else jump to a
    uniformly random node.  Only used on graphs in which every node has an out-link.  Sum = 1."""
    n = len(A)
    M = np.array(A, dtype=np.float64) if W is None else np.array(W, dtype=np.float64) * np.array(A)
    P = M / M.sum(axis=1)[:, None]
    G = damping * P.T + (1 - damping) / n * np.ones((n, n))
    # solve (I - d P^T) x = (1-d)/n 1
    x = np.linalg.solve(np.eye(n) - damping * P.T, (1 - damping) / n * np.ones(n))
    assert np.allclose(G.dot(x), x)
    return x / x.sum()


def msf_synchronizability(A):
    """largest Laplacian eigenvalue / smallest non-zero Laplacian eigenvalue (undirected);
    None if all eigenvalues are zero."""
    vals = np.linalg.eigvalsh(np.array(laplacian(A, False), dtype=np.float64))
    nz = vals[vals > 1e-8]
    if len(nz) == 0:
        return None
    return float(vals.max() / nz.min())


# -------------------------------------------------------- n.s.i. measures at unit node weights
#
# With all node weights 1 the n.s.i. measures [Heitzig2012] are the plain definitions evaluated
# on A+ = A + Id ("every node is also linked to itself"; a node has distance 1 to itself).

def closed_neighbours(A, i):
    return sorted(set(out_neighbours(A, i)) | {i})


def nsi_unit_local_clustering(A):
    """Uncorrected: fraction of ordered pairs (j,k) of closed neighbours of i (j=k, j=i allowed)
    with k a closed neighbour of j."""
    n = len(A)
    res = []
    for i in range(n):
        cn = closed_neighbours(A, i)
        cnt = sum(1 for j in cn for k in cn if j == k or A[j][k])
        res.append(Fr(cnt, len(cn) ** 2))
    return res


def nsi_unit_distances(D):
    n = len(D)
    return [[1 if i == j else D[i][j] for j in range(n)] for i in range(n)]


def nsi_unit_average_path_length(D):
    Dp = nsi_unit_distances(D)
    vals = [x for row in Dp for x in row if x != INF]
    return Fr(sum(vals), len(vals))


def nsi_unit_closeness(D):
    """N / sum_j d+(i,j); documented: 0 if some node cannot be reached."""
    n = len(D)
    Dp = nsi_unit_distances(D)
    return [Fr(0) if INF in Dp[i] else Fr(n, sum(Dp[i])) for i in range(n)]


def nsi_unit_harmonic_closeness(D):
    n = len(D)
    Dp = nsi_unit_distances(D)
    return [sum(Fr(1, x) for x in Dp[i] if x != INF) / n for i in range(n)]


def nsi_unit_exponential_closeness(D):
    n = len(D)
    Dp = nsi_unit_distances(D)
    return [sum(Fr(1, 2 ** x) for x in Dp[i] if x != INF) / n for i in range(n)]


def nsi_unit_global_efficiency(D):
    n = len(D)
    Dp = nsi_unit_distances(D)
    return sum(Fr(1, x) for row in Dp for x in row if x != INF) / (n * n)


def nsi_unit_average_neighbours_degree(A):
    k = [x + 1 for x in outdegree(A)]
    return [Fr(sum(k[j] for j in closed_neighbours(A, i)), k[i]) for i in range(len(A))]


def nsi_unit_max_neighbours_degree(A):
    k = [x + 1 for x in outdegree(A)]
    return [max(k[j] for j in closed_neighbours(A, i)) for i in range(len(A))]


# ------------------------------------------------ component-wise evaluation (disconnected graphs)
#
# The random-walk betweenness measures are defined on connected graphs.  pyunicorn's convention
# (code comments in newman_betweenness / arenas_betweenness / nsi_*: "has to be calculated for
# each component separately ... If the component has size 1, set random walk betweenness to zero"):
# the definition is evaluated on every connected component as a network of its own (its size is
# the component size), nodes of size-1 components get 0.

def components(A):
    """Connected components of an undirected graph, each a sorted list of nodes."""
    n = len(A)
    seen = [False] * n
    comps = []
    for s in range(n):
        if seen[s]:
            continue
        seen[s] = True
        comp, frontier = [s], [s]
        while frontier:
            nxt = []
            for u in frontier:
                for v in range(n):
                    if (A[u][v] or A[v][u]) and not seen[v]:
                        seen[v] = True
                        comp.append(v)
                        nxt.append(v)
            frontier = nxt
        comps.append(sorted(comp))
    return comps


def induced(A, nodes):
    return [[A[a][b] for b in nodes] for a in nodes]


def per_component(A, fn, singleton=0.0):
    """Evaluate the node-valued definition `fn` on each connected component separately."""
    res = np.zeros(len(A))
    for comp in components(A):
        if len(comp) == 1:
            res[comp[0]] = singleton
        else:
            vals = fn(induced(A, comp))
            for a, v in zip(comp, vals):
                res[a] = float(v)
    return res


def nsi_unit_arenas_betweenness(A, exclude_neighbors=True):
    """n.s.i. Arenas-type random-walk betweenness at unit node weights, stopping mode "neighbors",
    connected undirected graph; read from the docstring of nsi_arenas_betweenness plus the n.s.i.
    principle (every node is also linked to itself):
    the walker moves to a uniformly chosen member of the *closed* neighbourhood of its current node
    and "stops as soon as it reaches a neighbor of the target node" (or the target); result_j is the
    sum over targets t and sources s of the expected number of arrivals at j, where
    exclude_neighbors=True uses "only source and target nodes that are not linked to the node of
    interest" (j not in N+(t), s not in N+(t)); with False the final arrival at the stopping node
    is counted as well."""
    n = len(A)
    Ap = np.array(A, dtype=np.float64) + np.eye(n)
    P = Ap / Ap.sum(axis=1)[:, None]
    res = np.zeros(n)
    for t in range(n):
        stop = [a for a in range(n) if Ap[t, a]]
        T = [a for a in range(n) if not Ap[t, a]]
        if not T:
            continue
        F = np.linalg.solve(np.eye(len(T)) - P[np.ix_(T, T)], np.eye(len(T)))
        res[T] += (F - np.eye(len(T))).sum(axis=0)
        if not exclude_neighbors:
            res[stop] += F.dot(P[np.ix_(T, stop)]).sum(axis=0)
    return res
