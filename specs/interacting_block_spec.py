"""Vectorised definition-level reference for pyunicorn.core.InteractingNetworks (C11) on
networks with a few hundred nodes ("large cross degree" family of bounded/c11.py).

Same interface and the same conventions as specs/interacting_spec.Spec (see there), but every
quantity is evaluated with NumPy on int64 / float64 sub-blocks of the adjacency matrix:
degrees and link counts are int64 sums, triangle / triple counts are float64 matrix products
of 0/1 blocks (exact: all counts stay far below 2**53) converted to int64, shortest path
lengths come from Floyd-Warshall (one vectorised relaxation per intermediate node), shortest
path ensembles from the level recursion sigma(s,t) = sum_{u -> t, d(s,u) = d(s,t)-1}
sigma(s,u) [* w_u], and betweenness from the decomposition "v lies on a shortest s-t path
iff d(s,v) + d(v,t) = d(s,t); there are sigma(s,v) sigma(v,t) such paths".  Nothing here
imports pyunicorn, igraph or scipy, and no intermediate is narrower than 64 bit.

bounded/c11.py cross-checks this class against the pure-Python Spec on small random graphs
at start-up (a disagreement is a harness error, not a finding).
"""
import numpy as np

from specs.interacting_spec import UNDEF

INF = np.inf


class BlockSpec:
    def __init__(self, A, directed=False, w=None, L=None):
        A = np.asarray(A)
        self.n = int(A.shape[0])
        self.A = (A != 0).astype(np.int64)
        self.Af = self.A.astype(np.float64)
        self.directed = bool(directed)
        self.w = np.ones(self.n) if w is None else np.asarray(w, dtype=np.float64)
        self.L = None if L is None else np.asarray(L, dtype=np.float64) * self.A
        self._D = {}
        self._S = {}
        self._lc = None

    # ------------------------------------------------------------------ helpers
    @staticmethod
    def _ix(P):
        return np.asarray(list(P), dtype=np.int64)

    def _blk(self, M, P, Q):
        return M[np.ix_(self._ix(P), self._ix(Q))]

    def _M(self, attr):
        return self.L if attr else self.A

    def dist(self, weighted=False):
        """All-pairs shortest path lengths d[i, j] from i to j (Floyd-Warshall)."""
        key = bool(weighted)
        if key in self._D:
            return self._D[key]
        n = self.n
        D = np.full((n, n), INF)
        if weighted:
            D[self.A != 0] = self.L[self.A != 0]
        else:
            D[self.A != 0] = 1.0
        np.fill_diagonal(D, 0.0)
        for k in range(n):
            np.minimum(D, D[:, k, None] + D[None, k, :], out=D)
        self._D[key] = D
        return D

    def sigma(self, nsi=False):
        """sigma[s, t]: sum over all shortest s-t paths (unit link length) of the product of
        the weights of the interior nodes (all weights 1 unless nsi); 1 for s == t and for
        linked pairs, 0 for unconnected pairs."""
        key = bool(nsi)
        if key in self._S:
            return self._S[key]
        D = self.dist(False)
        w = self.w if nsi else np.ones(self.n)
        S = np.zeros((self.n, self.n))
        S[D == 0] = 1.0
        S[D == 1] = 1.0
        fin = D[np.isfinite(D)]
        maxd = int(fin.max()) if fin.size else 0
        for d in range(2, maxd + 1):
            prev = np.where(D == d - 1, S, 0.0) * w[None, :]
            cand = prev @ self.Af
            m = D == d
            S[m] = cand[m]
        self._S[key] = S
        return S

    # ------------------------------------------------------------------ sub-blocks
    def cross_adjacency(self, P, Q):
        return self._blk(self.A, P, Q)

    def internal_adjacency(self, P):
        return self._blk(self.A, P, P)

    def cross_link_attribute(self, P, Q):
        return self._blk(self.L, P, Q)

    def internal_link_attribute(self, P):
        return self._blk(self.L, P, P)

    def cross_path_lengths(self, P, Q, weighted=False):
        return self._blk(self.dist(weighted), P, Q)

    def internal_path_lengths(self, P, weighted=False):
        return self.cross_path_lengths(P, P, weighted)

    # ------------------------------------------------------------------ link counts, densities
    def number_cross_links(self, P, Q):
        return int(self.cross_adjacency(P, Q).sum(dtype=np.int64))

    def number_internal_links(self, P):
        s = int(self.internal_adjacency(P).sum(dtype=np.int64))
        return s if self.directed else s // 2

    def cross_link_density(self, P, Q):
        return self.number_cross_links(P, Q) / (len(P) * len(Q))

    def internal_link_density(self, P):
        m = len(P)
        if m < 2:
            return UNDEF
        pairs = m * (m - 1) if self.directed else m * (m - 1) // 2
        return self.number_internal_links(P) / pairs

    # ------------------------------------------------------------------ degrees
    def cross_outdegree(self, P, Q, attr=False):
        return self._blk(self._M(attr), P, Q).sum(axis=1)

    def cross_indegree(self, P, Q, attr=False):
        return self._blk(self._M(attr), Q, P).sum(axis=0)

    def cross_degree(self, P, Q, attr=False):
        out = self.cross_outdegree(P, Q, attr)
        if not self.directed:
            return out
        return out + self.cross_indegree(P, Q, attr)

    def internal_outdegree(self, P, attr=False):
        return self.cross_outdegree(P, P, attr)

    def internal_indegree(self, P, attr=False):
        return self.cross_indegree(P, P, attr)

    def internal_degree(self, P, attr=False):
        return self.cross_degree(P, P, attr)

    def total_cross_degree(self, P, Q):
        return float(np.mean(self.cross_degree(P, Q)))

    def cross_degree_density(self, P, Q):
        return self.cross_degree(P, Q) / float(len(Q))

    # ------------------------------------------------------------------ clustering (undirected)
    def _triples_triangles(self, P, Q):
        """Per node p of P: number of unordered pairs {q, r} of distinct nodes of Q (other
        than p) both linked to p, and number of those pairs that are themselves linked."""
        B = self._blk(self.Af, P, Q)                      # p -> q
        C = self._blk(self.Af, Q, Q)
        k = np.rint(B.sum(axis=1)).astype(np.int64)       # (diagonal of A is 0: q != p)
        triples = k * (k - 1) // 2
        tri2 = np.rint(((B @ C) * B).sum(axis=1)).astype(np.int64)   # ordered pairs (q, r)
        return triples, tri2 // 2

    def _cross_triples_triangles(self, p, Q):
        tr, tg = self._triples_triangles([p], Q)
        return int(tr[0]), int(tg[0])

    def cross_local_clustering(self, P, Q):
        tr, tg = self._triples_triangles(P, Q)
        out = np.zeros(len(tr))
        nz = tr > 0
        out[nz] = tg[nz] / tr[nz].astype(np.float64)
        return out

    def cross_global_clustering(self, P, Q):
        return float(np.mean(self.cross_local_clustering(P, Q)))

    def cross_transitivity(self, P, Q):
        tr, tg = self._triples_triangles(P, Q)
        tr, tg = int(tr.sum()), int(tg.sum())
        return tg / tr if tr else 0.0

    def local_clustering_whole(self):
        if self._lc is None:
            V = list(range(self.n))
            self._lc = self.cross_local_clustering(V, V)
        return self._lc

    def internal_global_clustering(self, P):
        return float(np.mean(self.local_clustering_whole()[self._ix(P)]))

    # ------------------------------------------------------------------ path based
    def cross_average_path_length(self, P, Q, weighted=False):
        D = self.cross_path_lengths(P, Q, weighted)
        fin = np.isfinite(D)
        if not fin.any():
            return UNDEF
        return float(D[fin].sum() / fin.sum())

    def internal_average_path_length(self, P, weighted=False):
        D = self.cross_path_lengths(P, P, weighted)
        fin = np.isfinite(D) & ~np.eye(len(P), dtype=bool)
        if not fin.any():
            return UNDEF
        return float(D[fin].sum() / fin.sum())

    def cross_closeness(self, P, Q, weighted=False):
        D = self.cross_path_lengths(P, Q, weighted)
        s = np.where(np.isfinite(D), D, self.n - 1).sum(axis=1)
        out = np.zeros(len(P))
        out[s != 0] = len(Q) / s[s != 0]
        return out

    def internal_closeness(self, P, weighted=False):
        m = len(P)
        D = self.cross_path_lengths(P, P, weighted)
        s = np.where(np.isfinite(D), D, m - 1).sum(axis=1)
        out = np.zeros(m)
        out[s != 0] = (m - 1) / s[s != 0]
        return out

    def average_cross_closeness(self, P, Q, weighted=False):
        return float(np.mean(self.cross_closeness(P, Q, weighted)))

    def local_efficiency(self, P, Q, weighted=False):
        D = self.cross_path_lengths(P, Q, weighted)
        if (D == 0).any():
            return UNDEF
        return (1.0 / D).mean(axis=1)                    # 1 / inf = 0

    def global_efficiency(self, P, Q, weighted=False):
        le = self.local_efficiency(P, Q, weighted)
        if le is UNDEF:
            return UNDEF
        m = float(np.mean(le))
        return 1.0 / m if m != 0 else UNDEF

    # ------------------------------------------------------------------ betweenness (undirected)
    def cross_betweenness(self, P, Q, nsi=False):
        """B_v = sum over ordered pairs (s in P, t in Q), s != t, v not in {s, t}, of
        w_s w_t * sigma'(s,v) sigma'(v,t) [d(s,v) + d(v,t) = d(s,t)] / sigma'(s,t)
        (sigma' = sigma with interior weights if nsi, plain path counts otherwise; w = 1
        unless nsi)."""
        D = self.dist(False)
        S = self.sigma(nsi)
        w = self.w if nsi else np.ones(self.n)
        Pi, Qi = self._ix(P), self._ix(Q)
        Dsv, Ssv = D[Pi, :], S[Pi, :] * w[Pi][:, None]           # |P| x n
        Dvt, Svt = D[:, Qi], S[:, Qi] * w[Qi][None, :]           # n x |Q|
        Dst, Sst = D[np.ix_(Pi, Qi)], S[np.ix_(Pi, Qi)]
        fin = Dst[np.isfinite(Dst)]
        maxd = int(fin.max()) if fin.size else 0
        B = np.zeros(self.n)
        for c in range(2, maxd + 1):
            m = Dst == c
            if not m.any():
                continue
            Z = np.zeros_like(Dst)
            Z[m] = 1.0 / Sst[m]
            for a in range(1, c):
                X = np.where(Dsv == a, Ssv, 0.0)                  # |P| x n
                Y = np.where(Dvt == c - a, Svt, 0.0)              # n x |Q|
                B += (X * (Z @ Y.T)).sum(axis=0)
        return B

    def internal_betweenness(self, P):
        return self.cross_betweenness(P, P)

    def nsi_cross_betweenness(self, P, Q):
        return self.cross_betweenness(P, Q, nsi=True)

    # ------------------------------------------------------------------ n.s.i. (undirected)
    def _Apf(self):
        return self.Af + np.eye(self.n)

    def nsi_cross_degree(self, P, Q):
        return self._blk(self._Apf(), P, Q) @ self.w[self._ix(Q)]

    def nsi_internal_degree(self, P):
        return self.nsi_cross_degree(P, P)

    def nsi_cross_mean_degree(self, P, Q):
        wP = self.w[self._ix(P)]
        return float((wP * self.nsi_cross_degree(P, Q)).sum() / wP.sum())

    def nsi_cross_edge_density(self, P, Q):
        return self.nsi_cross_mean_degree(P, Q) / float(self.w[self._ix(Q)].sum())

    def _nsi_triangle_weight(self, P, Q):
        Ap = self._Apf()
        wQ = self.w[self._ix(Q)]
        Bw = self._blk(Ap, P, Q) * wQ[None, :]            # A+[p, q] w_q
        Rw = self._blk(Ap, Q, P).T * wQ[None, :]          # A+[r, p] w_r
        return ((Bw @ self._blk(Ap, Q, Q)) * Rw).sum(axis=1)

    def nsi_cross_local_clustering(self, P, Q):
        k = self.nsi_cross_degree(P, Q)
        T = self._nsi_triangle_weight(P, Q)
        out = np.zeros(len(k))
        out[k != 0] = T[k != 0] / k[k != 0] ** 2
        return out

    def nsi_internal_local_clustering(self, P):
        return self.nsi_cross_local_clustering(P, P)

    def nsi_cross_global_clustering(self, P, Q):
        wP = self.w[self._ix(P)]
        return float((wP * self.nsi_cross_local_clustering(P, Q)).sum() / wP.sum())

    def nsi_cross_transitivity(self, P, Q):
        wP = self.w[self._ix(P)]
        k = self.nsi_cross_degree(P, Q)
        den = float((wP * k ** 2).sum())
        if den == 0:
            return UNDEF
        return float((wP * self._nsi_triangle_weight(P, Q)).sum() / den)

    def _dstar(self):
        return self.dist(False) + np.eye(self.n)

    def nsi_cross_closeness_centrality(self, P, Q):
        wQ = self.w[self._ix(Q)]
        d = self._blk(self._dstar(), P, Q)
        d = np.where(np.isfinite(d), d, self.n - 1)
        return wQ.sum() / (d @ wQ)

    def nsi_internal_closeness_centrality(self, P):
        return self.nsi_cross_closeness_centrality(P, P)

    def nsi_cross_average_path_length(self, P, Q):
        wP, wQ = self.w[self._ix(P)], self.w[self._ix(Q)]
        d = self._blk(self._dstar(), P, Q)
        unc = ~np.isfinite(d)
        unconnected = float((wP[:, None] + wQ[None, :])[unc].sum())
        d = np.where(unc, self.n - 1, d)
        num = float(wP @ d @ wQ)
        den = float(wP.sum() * wQ.sum() - unconnected)
        if abs(den) < 1e-12:
            return UNDEF
        return num / den

    def all_cross_paths_finite(self, P, Q):
        return bool(np.isfinite(self.cross_path_lengths(P, Q)).all())

    def connected(self):
        return bool(np.isfinite(self.dist(False)).all())
