"""Definition-level reference for the measures of pyunicorn.core.InteractingNetworks (C11).

Everything here is evaluated directly from the definitions on plain Python lists:
adjacency `A[i][j]` (link i -> j), optional link lengths / attributes `L[i][j]`, node
weights `w[i]`, and node lists `P`, `Q` (lists of distinct node indices in arbitrary
order).  Nothing in this module imports pyunicorn, igraph, scipy or numpy; shortest path
lengths come from Floyd-Warshall, shortest-path ensembles from explicit enumeration of all
shortest paths, triangle counts from nested loops over unordered pairs.

A return value of `UNDEF` means that the definition has no value for this input (0/0); the
harness then demands nothing of the library for this case.

Conventions taken from the library's documentation (they are part of what the methods
promise, see the docstrings / comments of interacting_networks.py):
  * cross measures normalise by |P|*|Q| ordered pairs, internal ones by |P|*(|P|-1);
  * average path lengths leave unconnected pairs out of numerator and denominator;
  * closeness replaces an infinite path length by "the maximum possible path length":
    N-1 (N = size of the whole network) for cross closeness, |P|-1 for internal closeness;
    a node whose path-length sum is 0 gets closeness 0;
  * n.s.i. measures use A+ = A + 1 and d* = d + 1 (unit self-distance), infinite d* -> N-1;
  * n.s.i. cross average path length (Wiedermann et al. 2013, with the library's treatment
    of unconnected pairs): sum_{v in P, q in Q} w_v w_q d*_vq / (W_P W_Q - sum_{(v,q)
    unconnected} (w_v + w_q)), infinite d* -> N-1 in the numerator.
"""
import math

INF = math.inf


class _Undef:
    def __repr__(self):
        return "UNDEF"


UNDEF = _Undef()


def _mean(xs):
    xs = list(xs)
    return sum(xs) / len(xs)


class Spec:
    def __init__(self, A, directed=False, w=None, L=None):
        self.n = len(A)
        self.A = [[1 if A[i][j] else 0 for j in range(self.n)] for i in range(self.n)]
        self.directed = bool(directed)
        self.w = [float(x) for x in w] if w is not None else [1.0] * self.n
        self.L = None if L is None else [[float(L[i][j]) for j in range(self.n)] for i in range(self.n)]
        self._D = {}

    # ------------------------------------------------------------------ basic matrices
    def attr(self, i, j):
        """Value of the link attribute on link i->j, 0 where there is no link."""
        return self.L[i][j] if self.A[i][j] else 0.0

    def dist(self, weighted=False):
        """All-pairs shortest path lengths d[i][j] from i to j (Floyd-Warshall)."""
        key = bool(weighted)
        if key in self._D:
            return self._D[key]
        n = self.n
        D = [[INF] * n for _ in range(n)]
        for i in range(n):
            D[i][i] = 0.0
            for j in range(n):
                if i != j and self.A[i][j]:
                    D[i][j] = self.L[i][j] if weighted else 1.0
        for k in range(n):
            Dk = D[k]
            for i in range(n):
                dik = D[i][k]
                if dik == INF:
                    continue
                Di = D[i]
                for j in range(n):
                    c = dik + Dk[j]
                    if c < Di[j]:
                        Di[j] = c
        self._D[key] = D
        return D

    def _M(self, attr):
        if attr:
            return lambda i, j: self.attr(i, j)
        return lambda i, j: self.A[i][j]

    # ------------------------------------------------------------------ sub-blocks
    def cross_adjacency(self, P, Q):
        return [[self.A[p][q] for q in Q] for p in P]

    def internal_adjacency(self, P):
        return self.cross_adjacency(P, P)

    def cross_link_attribute(self, P, Q):
        return [[self.attr(p, q) for q in Q] for p in P]

    def internal_link_attribute(self, P):
        return self.cross_link_attribute(P, P)

    def cross_path_lengths(self, P, Q, weighted=False):
        D = self.dist(weighted)
        return [[D[p][q] for q in Q] for p in P]

    def internal_path_lengths(self, P, weighted=False):
        return self.cross_path_lengths(P, P, weighted)

    # ------------------------------------------------------------------ link counts, densities
    def number_cross_links(self, P, Q):
        return sum(self.A[p][q] for p in P for q in Q)

    def number_internal_links(self, P):
        s = sum(self.A[p][q] for p in P for q in P)
        return s if self.directed else s // 2

    def cross_link_density(self, P, Q):
        return self.number_cross_links(P, Q) / (len(P) * len(Q))

    def internal_link_density(self, P):
        m = len(P)
        if m < 2:
            return UNDEF
        pairs = m * (m - 1) if self.directed else m * (m - 1) // 2
        return self.number_internal_links(P) / pairs

    # ------------------------------------------------------------------ degrees
    def cross_outdegree(self, P, Q, attr=False):
        M = self._M(attr)
        return [sum(M(p, q) for q in Q) for p in P]

    def cross_indegree(self, P, Q, attr=False):
        M = self._M(attr)
        return [sum(M(q, p) for q in Q) for p in P]

    def cross_degree(self, P, Q, attr=False):
        out = self.cross_outdegree(P, Q, attr)
        if not self.directed:
            return out
        return [a + b for a, b in zip(out, self.cross_indegree(P, Q, attr))]

    def internal_outdegree(self, P, attr=False):
        return self.cross_outdegree(P, P, attr)

    def internal_indegree(self, P, attr=False):
        return self.cross_indegree(P, P, attr)

    def internal_degree(self, P, attr=False):
        return self.cross_degree(P, P, attr)

    def total_cross_degree(self, P, Q):
        return _mean(self.cross_degree(P, Q))

    def cross_degree_density(self, P, Q):
        return [k / len(Q) for k in self.cross_degree(P, Q)]

    # ------------------------------------------------------------------ clustering (undirected)
    def _cross_triples_triangles(self, p, Q):
        """Unordered pairs {q, r} of distinct nodes of Q both linked to p; and those of
        them that are themselves linked."""
        triples = triangles = 0
        for a in range(len(Q)):
            for b in range(a):
                q, r = Q[a], Q[b]
                if q != p and r != p and self.A[p][q] and self.A[p][r]:
                    triples += 1
                    if self.A[q][r]:
                        triangles += 1
        return triples, triangles

    def cross_local_clustering(self, P, Q):
        out = []
        for p in P:
            tr, tg = self._cross_triples_triangles(p, Q)
            out.append(tg / tr if tr else 0.0)
        return out

    def cross_global_clustering(self, P, Q):
        return _mean(self.cross_local_clustering(P, Q))

    def cross_transitivity(self, P, Q):
        tr = tg = 0
        for p in P:
            a, b = self._cross_triples_triangles(p, Q)
            tr += a
            tg += b
        return tg / tr if tr else 0.0

    def local_clustering_whole(self):
        allnodes = list(range(self.n))
        return self.cross_local_clustering(allnodes, allnodes)

    def internal_global_clustering(self, P):
        C = self.local_clustering_whole()
        return _mean(C[p] for p in P)

    # ------------------------------------------------------------------ path based
    def cross_average_path_length(self, P, Q, weighted=False):
        D = self.dist(weighted)
        vals = [D[p][q] for p in P for q in Q if D[p][q] != INF]
        if not vals:
            return UNDEF
        return sum(vals) / len(vals)

    def internal_average_path_length(self, P, weighted=False):
        D = self.dist(weighted)
        vals = [D[p][q] for p in P for q in P if p != q and D[p][q] != INF]
        if not vals:
            return UNDEF
        return sum(vals) / len(vals)

    def cross_closeness(self, P, Q, weighted=False):
        D = self.dist(weighted)
        out = []
        for p in P:
            s = sum((D[p][q] if D[p][q] != INF else self.n - 1) for q in Q)
            out.append(len(Q) / s if s != 0 else 0.0)
        return out

    def internal_closeness(self, P, weighted=False):
        D = self.dist(weighted)
        m = len(P)
        out = []
        for p in P:
            s = sum((D[p][q] if D[p][q] != INF else m - 1) for q in P)
            out.append((m - 1) / s if s != 0 else 0.0)
        return out

    def average_cross_closeness(self, P, Q, weighted=False):
        return _mean(self.cross_closeness(P, Q, weighted))

    def local_efficiency(self, P, Q, weighted=False):
        """Mean inverse path length from p to the nodes of Q (1/inf = 0); only defined
        when no path length is 0, i.e. for disjoint lists."""
        D = self.dist(weighted)
        out = []
        for p in P:
            if any(D[p][q] == 0 for q in Q):
                return UNDEF
            out.append(_mean((0.0 if D[p][q] == INF else 1.0 / D[p][q]) for q in Q))
        return out

    def global_efficiency(self, P, Q, weighted=False):
        le = self.local_efficiency(P, Q, weighted)
        if le is UNDEF:
            return UNDEF
        m = _mean(le)
        return 1.0 / m if m != 0 else UNDEF

    # ------------------------------------------------------------------ betweenness (undirected)
    def _shortest_paths(self, s, t):
        """All shortest paths from s to t as node tuples (explicit enumeration)."""
        D = self.dist(False)
        if D[s][t] == INF:
            return []
        if s == t:
            return [(s,)]
        out = []
        for u in range(self.n):
            if self.A[s][u] and D[u][t] == D[s][t] - 1:
                for tail in self._shortest_paths(u, t):
                    out.append((s,) + tail)
        return out

    def cross_betweenness(self, P, Q, nsi=False):
        """B_v = sum over ordered pairs (s in P, t in Q), s != t, v not in {s, t}, of
        w_s w_t * [sum over shortest s-t paths through v of prod of the weights of the
        interior nodes other than v] / [sum over all shortest s-t paths of the product of
        the weights of the interior nodes]; all weights 1 unless nsi."""
        w = self.w if nsi else [1.0] * self.n
        B = [0.0] * self.n
        for s in P:
            for t in Q:
                if s == t:
                    continue
                paths = self._shortest_paths(s, t)
                if not paths:
                    continue
                tot = sum(math.prod(w[u] for u in path[1:-1]) for path in paths)
                for v in range(self.n):
                    if v == s or v == t:
                        continue
                    num = sum(math.prod(w[u] for u in path[1:-1] if u != v)
                              for path in paths if v in path[1:-1])
                    if num:
                        B[v] += w[s] * w[t] * num / tot
        return B

    def internal_betweenness(self, P):
        return self.cross_betweenness(P, P)

    def nsi_cross_betweenness(self, P, Q):
        return self.cross_betweenness(P, Q, nsi=True)

    # ------------------------------------------------------------------ n.s.i. (undirected)
    def _Ap(self, i, j):
        return 1 if (i == j or self.A[i][j]) else 0

    def nsi_cross_degree(self, P, Q):
        return [sum(self.w[q] for q in Q if self._Ap(p, q)) for p in P]

    def nsi_internal_degree(self, P):
        return self.nsi_cross_degree(P, P)

    def nsi_cross_mean_degree(self, P, Q):
        k = self.nsi_cross_degree(P, Q)
        return sum(self.w[p] * kp for p, kp in zip(P, k)) / sum(self.w[p] for p in P)

    def nsi_cross_edge_density(self, P, Q):
        return self.nsi_cross_mean_degree(P, Q) / sum(self.w[q] for q in Q)

    def _nsi_triangle_weight(self, p, Q):
        return sum(self.w[q] * self.w[r] for q in Q for r in Q
                   if self._Ap(p, q) and self._Ap(q, r) and self._Ap(r, p))

    def nsi_cross_local_clustering(self, P, Q):
        k = self.nsi_cross_degree(P, Q)
        return [(self._nsi_triangle_weight(p, Q) / kp ** 2 if kp != 0 else 0.0)
                for p, kp in zip(P, k)]

    def nsi_internal_local_clustering(self, P):
        return self.nsi_cross_local_clustering(P, P)

    def nsi_cross_global_clustering(self, P, Q):
        c = self.nsi_cross_local_clustering(P, Q)
        return sum(self.w[p] * cp for p, cp in zip(P, c)) / sum(self.w[p] for p in P)

    def nsi_cross_transitivity(self, P, Q):
        k = self.nsi_cross_degree(P, Q)
        den = sum(self.w[p] * kp ** 2 for p, kp in zip(P, k))
        if den == 0:
            return UNDEF
        return sum(self.w[p] * self._nsi_triangle_weight(p, Q) for p in P) / den

    def _dstar(self, p, q):
        d = self.dist(False)[p][q] + (1.0 if p == q else 0.0)
        return d

    def nsi_cross_closeness_centrality(self, P, Q):
        WQ = sum(self.w[q] for q in Q)
        out = []
        for p in P:
            s = 0.0
            for q in Q:
                d = self._dstar(p, q)
                s += self.w[q] * (d if d != INF else self.n - 1)
            out.append(WQ / s)
        return out

    def nsi_internal_closeness_centrality(self, P):
        return self.nsi_cross_closeness_centrality(P, P)

    def nsi_cross_average_path_length(self, P, Q):
        WP = sum(self.w[p] for p in P)
        WQ = sum(self.w[q] for q in Q)
        num = 0.0
        unconnected = 0.0
        for p in P:
            for q in Q:
                d = self._dstar(p, q)
                if d == INF:
                    unconnected += self.w[p] + self.w[q]
                    d = self.n - 1
                num += self.w[p] * d * self.w[q]
        den = WP * WQ - unconnected
        if abs(den) < 1e-12:
            return UNDEF
        return num / den

    def all_cross_paths_finite(self, P, Q):
        D = self.dist(False)
        return all(D[p][q] != INF for p in P for q in Q)

    def connected(self):
        D = self.dist(False)
        return all(D[i][j] != INF for i in range(self.n) for j in range(self.n))


def great_circle(lat1, lon1, lat2, lon2):
    """Angular great-circle distance (radians) between two points given in degrees."""
    a1, o1, a2, o2 = map(math.radians, (lat1, lon1, lat2, lon2))
    c = math.sin(a1) * math.sin(a2) + math.cos(a1) * math.cos(a2) * math.cos(o1 - o2)
    return math.acos(max(-1.0, min(1.0, c)))
