"""Definition-level specification of resistor-network quantities (property C18).

Nothing here calls pyunicorn or a pseudo-inverse.  All quantities are obtained from Kirchhoff's
laws by grounding one node and solving the reduced (non-singular) Laplacian system with a
textbook Gauss-Jordan elimination that works over `fractions.Fraction` (exact), `complex` and
`float` alike.

Conventions (same index convention as the library, taken from the docstrings of
pyunicorn.core.resistive_network and the loops of _ext/src_numerics.c, re-implemented):

  G[i][j]   admittance (1/r_ij on links, 0 elsewhere), symmetric
  L         admittance Laplacian  diag(sum_j G_ij) - G
  V^{st}    node potentials for a unit current entering at s and leaving at t
  ER(s,t)   V^{st}_s - V^{st}_t
  VCFB_i    2/(n(n-1)) * sum_{s<t, i not in {s,t}}  1/2 sum_j G_ij |V^{st}_i - V^{st}_j|
  ECFB_ij   2/(n(n-1)) * sum_{s<t}  G_ij |V^{st}_i - V^{st}_j|
  ad_i      sum_j G_ij
  anad_i    sum_j A_ij ad_j / ad_i
  ac_i      sum_{j,k} G_ij G_ik G_jk / (ad_i (d_i - 1)),   0 if d_i = 1   (d_i = degree)
"""
from fractions import Fraction
import itertools


def _zero(x):
    return x == 0


def solve_multi(M, B):
    """Solve M X = B (M square list-of-lists, B list-of-lists with the right-hand sides as columns)
    by Gauss-Jordan elimination.  Exact for Fractions; partial pivoting by magnitude for
    float/complex entries."""
    n = len(M)
    m = len(B[0]) if n else 0
    a = [list(M[i]) + list(B[i]) for i in range(n)]
    exact = all(isinstance(x, (Fraction, int)) for row in a for x in row)
    for c in range(n):
        if exact:
            p = next((r for r in range(c, n) if not _zero(a[r][c])), None)
        else:
            p = max(range(c, n), key=lambda r: abs(a[r][c]))
            if abs(a[p][c]) == 0:
                p = None
        if p is None:
            raise ZeroDivisionError("singular reduced Laplacian (network not connected?)")
        a[c], a[p] = a[p], a[c]
        piv = a[c][c]
        a[c] = [x / piv for x in a[c]]
        for r in range(n):
            if r != c and not _zero(a[r][c]):
                f = a[r][c]
                rowc = a[c]
                a[r] = [x - f * y for x, y in zip(a[r], rowc)]
    return [row[n:n + m] for row in a]


def conductance(R, A):
    """G_ij = 1/R_ij where A_ij != 0, else 0 (entries keep the arithmetic type of R)."""
    n = len(A)
    zero = R[0][0] * 0
    one = zero + 1
    return [[(one / R[i][j]) if A[i][j] else zero for j in range(n)] for i in range(n)]


def laplacian(G):
    n = len(G)
    zero = G[0][0] * 0
    return [[(sum((G[i][k] for k in range(n) if k != i), zero) if i == j else -G[i][j])
             for j in range(n)] for i in range(n)]


def grounded_inverse(G):
    """X = inverse of the Laplacian with the last node grounded, padded with a zero row/column.
    Potentials for a unit current s -> t are  V^{st}_i = X[i][s] - X[i][t]  (up to a constant)."""
    n = len(G)
    L = laplacian(G)
    zero = G[0][0] * 0
    one = zero + 1
    if n == 1:
        return [[zero]]
    red = [row[:n - 1] for row in L[:n - 1]]
    eye = [[one if i == j else zero for j in range(n - 1)] for i in range(n - 1)]
    Xr = solve_multi(red, eye)
    X = [Xr[i] + [zero] for i in range(n - 1)] + [[zero] * n]
    return X


def effective_resistance_matrix(G, X=None):
    n = len(G)
    X = grounded_inverse(G) if X is None else X
    return [[(X[s][s] - X[t][s]) - (X[s][t] - X[t][t]) for t in range(n)] for s in range(n)]


def pinv_laplacian(G):
    """Moore-Penrose inverse of the Laplacian of a connected network: (L + J/n)^-1 - J/n."""
    n = len(G)
    L = laplacian(G)
    zero = G[0][0] * 0
    one = zero + 1
    if isinstance(one, Fraction):
        inv_n = Fraction(1, n)
    else:
        inv_n = one / n
    M = [[L[i][j] + inv_n for j in range(n)] for i in range(n)]
    eye = [[one if i == j else zero for j in range(n)] for i in range(n)]
    Mi = solve_multi(M, eye)
    return [[Mi[i][j] - inv_n for j in range(n)] for i in range(n)]


def _pair_norm(n):
    return Fraction(2, n * (n - 1))


def vertex_current_flow_betweenness(G, X=None):
    n = len(G)
    X = grounded_inverse(G) if X is None else X
    out = []
    for i in range(n):
        tot = G[0][0] * 0
        nb = [j for j in range(n) if not _zero(G[i][j])]
        for s, t in itertools.combinations(range(n), 2):
            if i in (s, t):
                continue
            vi = X[i][s] - X[i][t]
            cur = G[0][0] * 0
            for j in nb:
                cur += G[i][j] * abs(vi - (X[j][s] - X[j][t]))
            tot += cur / 2
        out.append(tot * _pair_norm(n) if isinstance(tot, Fraction) else tot * 2.0 / (n * (n - 1)))
    return out


def edge_current_flow_betweenness(G, X=None):
    n = len(G)
    X = grounded_inverse(G) if X is None else X
    zero = G[0][0] * 0
    out = [[zero] * n for _ in range(n)]
    for i in range(n):
        for j in range(n):
            if _zero(G[i][j]):
                continue
            tot = zero
            for s, t in itertools.combinations(range(n), 2):
                tot += G[i][j] * abs((X[i][s] - X[i][t]) - (X[j][s] - X[j][t]))
            out[i][j] = tot * _pair_norm(n) if isinstance(tot, Fraction) else tot * 2.0 / (n * (n - 1))
    return out


def admittive_degree(G):
    return [sum(row) for row in G]


def average_neighbors_admittive_degree(G, A):
    ad = admittive_degree(G)
    n = len(G)
    return [sum(ad[j] for j in range(n) if A[i][j]) / ad[i] for i in range(n)]


def local_admittive_clustering(G, A):
    n = len(G)
    ad = admittive_degree(G)
    out = []
    for i in range(n):
        d = sum(1 for j in range(n) if A[i][j])
        if d == 1:
            out.append(G[0][0] * 0)
            continue
        tot = G[0][0] * 0
        for j in range(n):
            if _zero(G[i][j]):
                continue
            for k in range(n):
                tot += G[i][j] * G[i][k] * G[j][k]
        out.append(tot / (ad[i] * (d - 1)))
    return out


def simple_paths(A, a, b):
    """All simple paths a -> b as node lists (exhaustive DFS; small graphs only)."""
    n = len(A)
    out = []

    def rec(path, seen):
        u = path[-1]
        if u == b:
            out.append(list(path))
            return
        for v in range(n):
            if A[u][v] and v not in seen:
                seen.add(v)
                path.append(v)
                rec(path, seen)
                path.pop()
                seen.discard(v)
    rec([a], {a})
    return out


def cheapest_path_resistance(R, A):
    """All-pairs minimal path resistance (Floyd-Warshall over link resistances)."""
    n = len(A)
    INF = float("inf")
    d = [[0 if i == j else (R[i][j] if A[i][j] else INF) for j in range(n)] for i in range(n)]
    for k in range(n):
        for i in range(n):
            dik = d[i][k]
            if dik == INF:
                continue
            for j in range(n):
                if dik + d[k][j] < d[i][j]:
                    d[i][j] = dik + d[k][j]
    return d


def is_connected(A):
    n = len(A)
    seen = {0}
    stack = [0]
    while stack:
        u = stack.pop()
        for v in range(n):
            if A[u][v] and v not in seen:
                seen.add(v)
                stack.append(v)
    return len(seen) == n


# ---- closed-form circuit reductions (series / parallel laws)

def series(*zs):
    return sum(zs[1:], zs[0])


def parallel(*zs):
    return 1 / sum((1 / z for z in zs[1:]), 1 / zs[0])


def ladder_input_resistance(top, bottom, rungs):
    """Ladder with rungs[k] between top node k and bottom node k (k = 0..m), rails top[k]
    (top k -- top k+1) and bottom[k]; resistance seen between top 0 and bottom 0."""
    z = rungs[-1]
    for k in range(len(rungs) - 2, -1, -1):
        z = parallel(rungs[k], series(top[k], z, bottom[k]))
    return z


# ---- NumPy evaluation of the same definitions for larger / complex networks (LU solve of the
# ---- grounded Laplacian; still no pseudo-inverse, no library call)

def np_quantities(Rm, A):
    """Rm: (n,n) float or complex resistances, A: (n,n) 0/1.  Returns a dict with the same
    quantities as the exact functions above, as NumPy arrays."""
    import numpy as np
    A = np.asarray(A) != 0
    n = A.shape[0]
    cplx = np.iscomplexobj(Rm)
    G = np.zeros((n, n), dtype=complex if cplx else float)
    G[A] = 1.0 / np.asarray(Rm)[A]
    ad = G.sum(axis=1)
    L = np.diag(ad) - G
    X = np.zeros_like(G)
    if n > 1:
        X[:n - 1, :n - 1] = np.linalg.solve(L[:n - 1, :n - 1], np.eye(n - 1))
    dX = np.diag(X)
    ER = dX[:, None] - X.T - X + dX[None, :]
    # pinv(L) = (L + a 11^T)^-1 - 11^T/(a n^2) for any a != 0; take a of the magnitude of L's entries
    # so that the shifted matrix stays well conditioned at every resistance scale
    a = float(np.abs(np.diag(L)).mean()) / n if n else 1.0
    P = np.linalg.solve(L + a, np.eye(n)) - 1.0 / (a * n * n)
    deg = A.sum(axis=1)
    out = {"G": G, "L": L, "ER": ER, "P": P, "ad": ad}
    with np.errstate(all="ignore"):
        out["anad"] = (A @ ad) / ad
        tri = np.einsum("ij,ik,jk->i", G, G, G)
        ac = np.zeros(n, dtype=G.dtype)
        m = deg != 1
        ac[m] = tri[m] / (ad[m] * (deg[m] - 1))
        out["ac"] = ac
    if not cplx:
        vc = np.zeros(n)
        ec = np.zeros((n, n))
        for s in range(n):
            for t in range(s + 1, n):
                V = X[:, s] - X[:, t]
                F = G * np.abs(V[:, None] - V[None, :])
                ec += F
                half = 0.5 * F.sum(axis=1)
                half[s] = 0.0
                half[t] = 0.0
                vc += half
        norm = 2.0 / (n * (n - 1)) if n > 1 else 0.0
        out["vcfb"] = vc * norm
        out["ecfb"] = ec * norm
    return out
