"""Definition-level specs for property C15 (surrogates).

Nothing here calls into pyunicorn.  Everything is a direct evaluation of the textbook
definitions on NumPy arrays:

* row-wise permutation          : equal multisets of values per row (bit-exact)
* amplitude spectrum            : |DFT| of each row at the one-sided frequencies
* delay embedding               : emb[k, l] = x[k + l*tau]
* recurrence matrix (sup norm)  : R[j,k] = 1  iff  max_l |e_j,l - e_k,l|  (<= | <)  eps
* twins                         : T[j] = { k : |j-k| > min_dist  and  R[j,:] == R[k,:] }
* twin walk admissibility       : a surrogate is a sequence of original states k_0,k_1,... with
                                  k_{m+1} in { k_m + 1 } u { t+1 : t in T[k_m] };  whenever one of
                                  these candidates falls off the end of the trajectory (>= n), the
                                  walk may restart at an arbitrary state.
"""
import numpy as np


# ------------------------------------------------------------------ permutations / spectra

def row_permutation_defect(orig, surr):
    """Return None if every row of `surr` is a permutation (as multiset, bit-exact) of the
    same row of `orig`; otherwise a short description of the first offending row."""
    orig = np.asarray(orig)
    surr = np.asarray(surr)
    if surr.shape != orig.shape:
        return "shape %r != %r" % (surr.shape, orig.shape)
    for i in range(orig.shape[0]):
        a = np.sort(orig[i])
        b = np.sort(surr[i])
        if not np.array_equal(a, b, equal_nan=True):
            bad = np.nonzero(~((a == b) | (np.isnan(a) & np.isnan(b))))[0]
            k = int(bad[0])
            return "row %d: %d-th smallest value is %r in the surrogate, %r in the data" % (
                i, k, float(b[k]), float(a[k]))
    return None


def amplitude_spectrum(x):
    """One-sided amplitude spectrum |X_f|, f = 0..floor(n/2), of every row, from the DFT
    definition (O(n^2) matrix product for short rows - independent of the FFT used by the
    library -, numpy's rfft for long rows)."""
    x = np.asarray(x, dtype=float)
    n = x.shape[1]
    if n <= 64:
        f = np.arange(n // 2 + 1)
        t = np.arange(n)
        W = np.exp(-2j * np.pi * np.outer(t, f) / n)
        return np.abs(x @ W)
    return np.abs(np.fft.rfft(x, axis=1))


def interior_bins(n):
    """Indices of the non-zero, non-Nyquist one-sided frequencies of a length-n series."""
    hi = (n - 1) // 2           # n odd: (n-1)/2 ;  n even: n/2 - 1
    return np.arange(1, hi + 1)


def spectrum_defect(orig, surr, bins, rtol=1e-9):
    """None if |DFT(surr)| == |DFT(orig)| at `bins` for every row within
    rtol * (largest amplitude of that row); else description."""
    orig = np.asarray(orig, dtype=float)
    surr = np.asarray(surr, dtype=float)
    if surr.shape != orig.shape:
        return "shape %r != %r" % (surr.shape, orig.shape)
    if not np.all(np.isfinite(surr)):
        return "non-finite values in surrogate"
    if len(bins) == 0:
        return None
    ao = amplitude_spectrum(orig)
    asur = amplitude_spectrum(surr)
    scale = ao.max(axis=1)
    for i in range(orig.shape[0]):
        tol = rtol * max(scale[i], np.abs(orig[i]).max(), 1e-300)
        d = np.abs(ao[i, bins] - asur[i, bins])
        if d.max() > tol:
            b = int(bins[int(d.argmax())])
            return "row %d bin %d: |S|=%.17g |X|=%.17g (tol %.3g)" % (
                i, b, asur[i, b], ao[i, b], tol)
    return None


# ------------------------------------------------------------------ embedding / recurrence / twins

def embed(x, dim, tau):
    """Delay embedding of a scalar series: emb[k, l] = x[k + l*tau], k < n - (dim-1)*tau."""
    x = np.asarray(x, dtype=float)
    n = x.shape[0] - (dim - 1) * tau
    return np.array([[x[k + l * tau] for l in range(dim)] for k in range(n)],
                    dtype=float).reshape(n, dim)


def sup_distance(emb):
    emb = np.asarray(emb, dtype=float)
    return np.abs(emb[:, None, :] - emb[None, :, :]).max(axis=2) if emb.shape[1] else \
        np.zeros((emb.shape[0], emb.shape[0]))


def recurrence_matrix(emb, eps, strict):
    """R[j,k] = 1 iff sup-distance(e_j, e_k) < eps (strict) or <= eps."""
    D = sup_distance(emb)
    return (D < eps).astype(np.int8) if strict else (D <= eps).astype(np.int8)


def threshold_margin(emb, eps):
    """Smallest |distance - eps| over all pairs (to keep clear of the </<= convention)."""
    D = sup_distance(emb)
    return float(np.abs(D - eps).min()) if D.size else np.inf


def twins_from_R(R, min_dist):
    """T[j] = sorted list of k with |j-k| > min_dist and row j of R identical to row k."""
    R = np.asarray(R)
    n = R.shape[0]
    T = []
    for j in range(n):
        T.append([k for k in range(n)
                  if abs(j - k) > min_dist and bool(np.all(R[j, :] == R[k, :]))])
    return T


def twins_defect(lib_twins, T):
    """Compare the library's twin lists (first len(T) entries) with the definition."""
    n = len(T)
    if len(lib_twins) < n:
        return "twin list has %d entries for %d states" % (len(lib_twins), n)
    for extra in lib_twins[n:]:
        if len(extra):
            return "non-empty twin entry beyond the last state: %r" % (list(extra),)
    for j in range(n):
        got = [int(v) for v in lib_twins[j]]
        if sorted(got) != T[j]:
            return "state %d: twins %r, definition %r" % (j, sorted(got), T[j])
    return None


def walk_defect(surr_states, orig_states, T):
    """Is the sequence `surr_states` (m x d) an admissible twin walk over `orig_states` (n x d)
    with twin sets T?  Returns None or (kind, description), kind in {"states","transitions"}."""
    surr_states = np.asarray(surr_states)
    orig_states = np.asarray(orig_states)
    n = orig_states.shape[0]
    m = surr_states.shape[0]

    def matches(v):
        return set(int(k) for k in range(n) if np.array_equal(orig_states[k], v))

    cur = None
    for j in range(m):
        cand = matches(surr_states[j])
        if not cand:
            return ("states", "surrogate step %d: state %r is not an original state" % (
                j, np.asarray(surr_states[j]).tolist()))
        if cur is None:
            cur = cand
            continue
        nxt = set()
        for k in cur:
            succ = [k + 1] + [t + 1 for t in T[k]]
            if any(c >= n for c in succ):
                nxt = set(range(n))
                break
            nxt.update(succ)
        new = cand & nxt
        if not new:
            return ("transitions",
                    "step %d -> %d: from original state(s) %r the admissible successors are %r, "
                    "surrogate continues with state(s) %r" % (
                        j - 1, j, sorted(cur)[:6], sorted(nxt)[:10], sorted(cand)[:6]))
        cur = new
    return None
