"""NumPy references for the size ladders / call histories of the C20 bounded stand-in.

Nothing here calls pyunicorn.  Each function evaluates the estimator the corresponding public entry point
documents (and its Python wrapper prepares) directly on the input arrays, vectorised so that one evaluation
stays cheap for the ladder sizes (up to 8193 samples, 2049 nodes / bins).  Where a compiled kernel works in
single precision the *inputs* are rounded the way the wrapper rounds them (so that a sample lands in the
same histogram bin) and the arithmetic is done in double precision; the harness compares with a float32
tolerance.

A reference returns None where the estimator is not defined for the input (zero data range, no samples);
the harness then checks shape only.
"""
import numpy as np

F32 = np.float32


# ------------------------------------------------------------------ rank correlation with a joint event mask

def ranks_of(anomaly):
    """rank 1..T of every sample within its row (values are distinct in the harness' data)."""
    a = np.asarray(anomaly, dtype=float)
    order = np.argsort(a, axis=1, kind="stable")
    r = np.empty(a.shape, dtype=float)
    rows = np.arange(a.shape[0])[:, None]
    r[rows, order] = np.arange(1, a.shape[1] + 1, dtype=float)[None, :]
    return r


def spearman_rows(mask, anomaly, rows):
    """Rows `rows` of the masked Spearman matrix of RainfallClimateNetwork.spearman_corr:
    for the pair (i, j) the samples at which neither series has an event (joint mask 0) are counted
    (zerocount), the ranks are shifted by that count, the means are taken over the non-negative shifted
    ranks divided by (T - zerocount), and covariance / variances are summed over the joint events."""
    mask = np.asarray(mask) != 0
    m, T = mask.shape
    rk = ranks_of(anomaly)
    out = np.empty((len(rows), m), dtype=float)
    with np.errstate(all="ignore"):
        for a, i in enumerate(rows):
            joint = mask[i][None, :] | mask
            zc = (~joint).sum(axis=1).astype(float)
            ri = rk[i][None, :] - zc[:, None]
            rj = rk - zc[:, None]
            cnt = T - zc
            meani = np.where(ri >= 0, ri, 0.0).sum(axis=1) / cnt
            meanj = np.where(rj >= 0, rj, 0.0).sum(axis=1) / cnt
            ni = np.where(joint, ri - meani[:, None], 0.0)
            nj = np.where(joint, rj - meanj[:, None], 0.0)
            cov = (ni * nj).sum(axis=1)
            si = (ni * ni).sum(axis=1)
            sj = (nj * nj).sum(axis=1)
            out[a] = cov / np.sqrt(si * sj)
    return out


def phase_anomaly(obs, time_cycle):
    """climatological anomaly: subtract the mean of every phase of the cycle."""
    obs = np.asarray(obs, dtype=float)
    an = np.zeros(obs.shape)
    for ph in range(time_cycle):
        s = obs[ph::time_cycle]
        an[ph::time_cycle] = s - s.mean(axis=0)
    return an


def winter_indices(T, time_cycle=12, months=(0, 1, 11)):
    years = T // time_cycle
    idx = sorted(ph + time_cycle * y for ph in months for y in range(years))
    return np.array(idx, dtype=int)


def rainfall_inputs(obs, time_cycle, scale_fac, offset):
    """(final_mask, anomaly) [node, time] as RainfallClimateNetwork derives them for event_threshold=(0, 1):
    rainfall = (observable + offset) * scale_fac; an event is a sample with non-zero rainfall inside the
    closed interval [min, max] of all rainfall values (i.e. every non-zero sample)."""
    obs = np.asarray(obs, dtype=float)
    rain = ((obs + offset) * scale_fac).T
    an = ((phase_anomaly(obs, time_cycle) + offset) * scale_fac).T - scale_fac * offset
    flat = np.sort(rain.reshape(-1))
    mask = (rain >= flat[0]) & (rain <= flat[-1]) & (rain != 0)
    return mask, an


# ------------------------------------------------------------------ equal-width histogram mutual information

def _pair_mi(sa, sb, ha, hb, T):
    """sum over occupied cells of p_ab log(p_ab / (p_a p_b))"""
    nb = ha.shape[0]
    code, cnt = np.unique(sa.astype(np.int64) * nb + sb.astype(np.int64), return_counts=True)
    la, lb = code // nb, code % nb
    p = cnt / float(T)
    pa, pb = ha[la] / float(T), hb[lb] / float(T)
    return float((p * np.log(p / pb / pa)).sum())


def _hist(sym, nb):
    h = np.zeros((sym.shape[0], nb), dtype=np.int64)
    for i in range(sym.shape[0]):
        h[i] = np.bincount(sym[i], minlength=nb)
    return h


def climate_mi_symbols(anomaly_tn, n_bins=32):
    """bin numbers [node, time] for MutualInfoClimateNetwork: series normalised to zero mean / unit variance
    (NaN -> 0), common range over the field, single-precision rescaling into [0, 1]."""
    a = np.array(anomaly_tn, dtype=float)
    with np.errstate(all="ignore"):
        a -= a.mean(axis=0)
        a /= np.sqrt((a * a).mean(axis=0))
    a[np.isnan(a)] = 0
    a = a.T.copy()
    if a.size == 0:
        return None
    rmin, rmax = float(a.min()), float(a.max())
    if rmax == rmin:
        return None
    scaling = F32(1.0 / (rmax - rmin))
    with np.errstate(all="ignore"):
        resc = (scaling * (a.astype(F32) - F32(rmin))).astype(float)
        sym = np.where(resc < 1.0, (resc * n_bins).astype(np.int64), n_bins - 1)
    return sym


def climate_mi_pairs(anomaly_tn, pairs, n_bins=32):
    sym = climate_mi_symbols(anomaly_tn, n_bins)
    if sym is None:
        return None
    T = sym.shape[1]
    h = _hist(sym, n_bins)
    return np.array([0.0 if i == j else _pair_mi(sym[max(i, j)], sym[min(i, j)], h[max(i, j)], h[min(i, j)], T)
                     for i, j in pairs])


def surrogate_mi_pairs(orig, surr, n_bins, pairs):
    """Surrogates.test_mutual_information: entry (i, j), i != j, is the MI between original series i and
    surrogate series j over n_bins equal-width bins of the common range (double precision); diagonal 0."""
    o = np.asarray(orig, dtype=float)
    s = np.asarray(surr, dtype=float)
    if o.size == 0:
        return None
    rmin = min(o.min(), s.min())
    rmax = max(o.max(), s.max())
    if not rmax > rmin:
        return None
    scaling = 1.0 / (rmax - rmin)
    T = o.shape[1]

    def symbols(x):
        resc = scaling * (x - rmin)
        with np.errstate(all="ignore"):
            return np.where(resc < 1.0, (resc * n_bins).astype(np.int64), n_bins - 1)
    so, ss = symbols(o), symbols(s)
    ho, hs = _hist(so, n_bins), _hist(ss, n_bins)
    return np.array([0.0 if i == j else _pair_mi(so[i], ss[j], ho[i], hs[j], T) for i, j in pairs])


def surrogate_pearson(orig, surr):
    o = np.asarray(orig, dtype=float)
    s = np.asarray(surr, dtype=float)
    with np.errstate(all="ignore"):
        c = o @ s.T / float(o.shape[1])
    np.fill_diagonal(c, 0.0)
    return c


# ------------------------------------------------------------------ current flow betweenness

def _pair_abs_sum(u):
    """sum_{s<t} |u_s - u_t|"""
    w = np.sort(u)
    n = w.shape[0]
    return float((w * (2.0 * np.arange(n) - n + 1)).sum())


def laplacian_pinv(adm):
    """Moore-Penrose inverse of the admittance Laplacian of a *connected* network."""
    N = adm.shape[0]
    L = np.diag(adm.sum(axis=0)) - adm
    return np.linalg.inv(L + 1.0 / N) - 1.0 / N


def admittance_of(res, adj):
    res = np.asarray(res, dtype=float)
    with np.errstate(all="ignore"):
        return np.where(np.asarray(adj) != 0, 1.0 / res, 0.0)


def vcfb(adm, R, i):
    """2/(N(N-1)) sum_{s<t; s,t != i} 1/2 sum_j adm_ij |(R_is - R_js) + (R_jt - R_it)|  (unit currents)"""
    N = adm.shape[0]
    keep = np.arange(N) != i
    tot = 0.0
    for j in np.nonzero(adm[i])[0]:
        tot += adm[i, j] * _pair_abs_sum((R[i] - R[j])[keep])
    return tot / (N * (N - 1.0))


def ecfb(adm, R):
    """2/(N(N-1)) adm_ij sum_{s<t} |(R_is - R_js) + (R_jt - R_it)|"""
    N = adm.shape[0]
    out = np.zeros((N, N))
    for i, j in zip(*np.nonzero(adm)):
        out[i, j] = 2.0 * adm[i, j] * _pair_abs_sum(R[i] - R[j]) / (N * (N - 1.0))
    return out


# ------------------------------------------------------------------ lagged cross correlation

def cross_correlation_all(data, tau_max):
    """[i, j, lag] = mean_k x_i(k + tau_max - lag) x_j(k + tau_max) over the T - tau_max common samples, each
    window standardised on its own (single-precision storage as in the wrapper; zero variance -> 0)."""
    data = np.asarray(data, dtype=float)
    T, N = data.shape
    cr = T - tau_max
    if cr <= 0:
        return None
    arr = np.empty((tau_max + 1, N, cr), dtype=F32)
    with np.errstate(all="ignore"):
        for t in range(tau_max + 1):
            w = data[t:t + cr]
            arr[t] = (w - w.mean(axis=0).reshape(1, N)).T
            arr[t] /= arr[t].std(axis=1).reshape(N, 1)
            arr[t][~np.isfinite(arr[t])] = 0
    a = arr.astype(float)
    out = np.empty((N, N, tau_max + 1))
    for tau in range(tau_max + 1):
        out[:, :, tau_max - tau] = a[tau] @ a[tau_max].T / float(cr)
    return out


# ------------------------------------------------------------------ nearest neighbour counts (Kraskov et al.)

def knn_counts(arr, dim_x, dim_y, k, chunk=256):
    """arr [dim, T] (values exactly representable in float32).  eps_i = maximum-norm distance from point i to
    its k-th nearest neighbour (the point itself not counted); k_z = #{j: dz_ij < eps_i}, k_xz / k_yz = those
    of them with dx_ij < eps_i / dy_ij < eps_i (strict, the point itself included)."""
    a = np.asarray(arr, dtype=float)
    dim, T = a.shape
    kxz = np.empty(T, dtype=np.int64)
    kyz = np.empty(T, dtype=np.int64)
    kz = np.empty(T, dtype=np.int64)
    for lo in range(0, T, chunk):
        hi = min(T, lo + chunk)
        d = np.abs(a[:, lo:hi, None] - a[:, None, :])           # dim, c, T
        dmax = d.max(axis=0)
        eps = np.partition(dmax, k, axis=1)[:, k][:, None]
        dx = d[:dim_x].max(axis=0)
        dy = d[dim_x:dim_x + dim_y].max(axis=0)
        dz = d[dim_x + dim_y:].max(axis=0) if dim > dim_x + dim_y else np.zeros_like(dx)
        inz = dz < eps
        kz[lo:hi] = inz.sum(axis=1)
        kxz[lo:hi] = (inz & (dx < eps)).sum(axis=1)
        kyz[lo:hi] = (inz & (dy < eps)).sum(axis=1)
    return kxz, kyz, kz
